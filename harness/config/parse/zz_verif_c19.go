//go:build verif

package parse

// Harnesses for C19: exactly the goverter: lines of a doc comment are settings, in order, with the
// text after the first space as value. Kernel K7: CommentToString, stripTrailingWhitespace,
// SettingLines, Command executed symbolically; every byte of the comment bodies is symbolic.

import "go/ast"

func verifWS(c byte) bool {
	return c == ' ' || c == '\t' || c == '\n' || c == '\v' || c == '\f' || c == '\r'
}

// reference: trim ASCII white space on both sides
func verifTrim(s string) string {
	i, j := 0, len(s)
	for i < j && verifWS(s[i]) {
		i++
	}
	for j > i && verifWS(s[j-1]) {
		j--
	}
	return s[i:j]
}

const verifPrefix = "goverter:"

// reference: the setting lines of a list of physical comment lines
func verifSettings(lines []string) []string {
	var out []string
	for _, l := range lines {
		t := verifTrim(l)
		if len(t) >= len(verifPrefix) && t[:len(verifPrefix)] == verifPrefix {
			out = append(out, t[len(verifPrefix):])
		}
	}
	return out
}

// reference: physical lines of a block comment body
func verifSplitLines(body string) []string {
	var out []string
	start := 0
	for i := 0; i < len(body); i++ {
		if body[i] == '\n' {
			out = append(out, body[start:i])
			start = i + 1
		}
	}
	return append(out, body[start:])
}

func verifNoByte(s string, c byte) bool {
	ok := true
	for i := 0; i < len(s); i++ {
		ok = verifAnd(ok, s[i] != c)
	}
	return ok
}

func verifCountByte(s string, c byte) int {
	n := 0
	for i := 0; i < len(s); i++ {
		if s[i] == c {
			n++
		}
	}
	return n
}

func verifSameLines(id string, got, want []string) {
	verifAssert(id+"-count", len(got) == len(want))
	if len(got) != len(want) {
		return
	}
	for i := range got {
		verifAssert(id+"-text-and-order", got[i] == want[i])
	}
}

// a line comment with an arbitrary body (go/parser: no newline, CRs stripped)
func verifLineComment(tag string, max int) (*ast.Comment, []string) {
	body := nondetString(tag, max)
	verifAssume(verifNoByte(body, '\n'))
	verifAssume(verifNoByte(body, '\r'))
	return &ast.Comment{Text: "//" + body}, []string{body}
}

// a block comment with an arbitrary body with at most maxNL newlines
func verifBlockComment(tag string, max, maxNL int) (*ast.Comment, []string) {
	body := nondetString(tag, max)
	verifAssume(verifNoByte(body, '\r'))
	verifAssume(verifCountByte(body, '\n') <= maxNL)
	// the body cannot contain the terminator
	for i := 0; i+1 < len(body); i++ {
		verifAssume(!(body[i] == '*' && body[i+1] == '/'))
	}
	return &ast.Comment{Text: "/*" + body + "*/"}, verifSplitLines(body)
}

var VerifC19LineMax = 12
var VerifC19BlockMax = 9
var VerifC19GroupLead = 1
var VerifC19GroupKey = 1
var VerifC19GroupTail = 0

// VerifHarness_C19_Line: one `//` comment, every byte symbolic.
func VerifHarness_C19_Line() {
	c, lines := verifLineComment("body", VerifC19LineMax)
	got := SettingLines(CommentToString(&ast.CommentGroup{List: []*ast.Comment{c}}))
	want := verifSettings(lines)
	if len(want) == 1 {
		verifReach("line-is-setting")
	} else {
		verifReach("line-is-not-setting")
	}
	verifSameLines("line-comment", got, want)
}

// VerifHarness_C19_Block: one block comment with up to two newlines.
func VerifHarness_C19_Block() {
	c, lines := verifBlockComment("body", VerifC19BlockMax, 2)
	got := SettingLines(CommentToString(&ast.CommentGroup{List: []*ast.Comment{c}}))
	want := verifSettings(lines)
	if len(want) > 0 {
		verifReach("block-has-setting")
	}
	verifSameLines("block-comment", got, want)
}

// a comment body built around the directive prefix: lead + "goverter:" + key + tail, the
// surrounding bytes symbolic (a non-blank lead byte makes it an ordinary comment line)
func verifDirectiveBody(tag string) string {
	lead := nondetString(tag+".lead", VerifC19GroupLead)
	key := nondetString(tag+".key", VerifC19GroupKey)
	tail := nondetString(tag+".tail", VerifC19GroupTail)
	return lead + verifPrefix + key + tail
}

func verifBlockOK(body string) {
	verifAssume(verifNoByte(body, '\r'))
	for i := 0; i+1 < len(body); i++ {
		verifAssume(!(body[i] == '*' && body[i+1] == '/'))
	}
}

// VerifHarness_C19_Group: two comments (line/line, line/block, block/line, block with two lines);
// setting lines come out in source order.
func VerifHarness_C19_Group() {
	a, b := verifDirectiveBody("a"), verifDirectiveBody("b")
	var cs []*ast.Comment
	var lines []string
	switch nondetChoice("layout", 7) {
	case 4:
		// an empty `//` line (paragraph break) between, before or after the two lines
		verifAssume(verifNoByte(a, '\n') && verifNoByte(a, '\r') && verifNoByte(b, '\n') && verifNoByte(b, '\r'))
		switch nondetChoice("empty-line-at", 3) {
		case 0:
			cs = []*ast.Comment{{Text: "//"}, {Text: "//" + a}, {Text: "//" + b}}
		case 1:
			cs = []*ast.Comment{{Text: "//" + a}, {Text: "//"}, {Text: "//" + b}}
		default:
			cs = []*ast.Comment{{Text: "//" + a}, {Text: "//"}, {Text: "// "}, {Text: "//" + b}, {Text: "//"}}
		}
		lines = []string{a, b}
	case 5:
		// prose and an empty line between the two lines
		verifAssume(verifNoByte(a, '\n') && verifNoByte(a, '\r') && verifNoByte(b, '\n') && verifNoByte(b, '\r'))
		cs, lines = []*ast.Comment{{Text: "//" + a}, {Text: "// P."}, {Text: "//"}, {Text: "// g: x"}, {Text: "//" + b}}, []string{a, b}
	case 6:
		// a block comment with blank lines between the two lines
		body := a + "\n\n \n" + b + "\n"
		verifBlockOK(body)
		cs, lines = []*ast.Comment{{Text: "/*" + body + "*/"}}, verifSplitLines(body)
	case 0:
		verifAssume(verifNoByte(a, '\n') && verifNoByte(a, '\r') && verifNoByte(b, '\n') && verifNoByte(b, '\r'))
		cs, lines = []*ast.Comment{{Text: "//" + a}, {Text: "//" + b}}, []string{a, b}
	case 1:
		verifAssume(verifNoByte(a, '\n') && verifNoByte(a, '\r'))
		verifBlockOK(b)
		cs, lines = []*ast.Comment{{Text: "//" + a}, {Text: "/*" + b + "*/"}}, append([]string{a}, verifSplitLines(b)...)
	case 2:
		verifBlockOK(a)
		verifAssume(verifNoByte(b, '\n') && verifNoByte(b, '\r'))
		cs, lines = []*ast.Comment{{Text: "/*" + a + "*/"}, {Text: "//" + b}}, append(verifSplitLines(a), b)
	default:
		body := a + "\n" + b
		verifBlockOK(body)
		cs, lines = []*ast.Comment{{Text: "/*" + body + "*/"}}, verifSplitLines(body)
	}
	want := verifSettings(lines)
	got := SettingLines(CommentToString(&ast.CommentGroup{List: cs}))
	if len(want) == 2 {
		verifReach("two-settings")
	}
	verifSameLines("group", got, want)
}

// VerifHarness_C19_Command: the text after the first space is the value.
func VerifHarness_C19_Command() {
	line := nondetString("line", 8)
	k, v := Command(line)
	idx := -1
	for i := 0; i < len(line); i++ {
		if line[i] == ' ' {
			idx = i
			break
		}
	}
	if idx < 0 {
		verifReach("no-space")
		verifAssert("command-without-space", k == line && v == "")
	} else {
		verifReach("space")
		verifAssert("command-splits-at-first-space", k == line[:idx] && v == line[idx+1:])
	}
}

// VerifHarness_C19_Marker: whenever a setting line `converter...` exists, the marker test used by
// comments.parseGenDecl (strings.Contains(CommentToString(doc), "goverter:converter")) is true; and a
// nil doc comment has no settings.
func VerifHarness_C19_Marker() {
	verifAssert("nil-doc-has-no-settings", len(SettingLines(CommentToString(nil))) == 0)
	lead := nondetString("lead", 2)
	tail := nondetString("tail", 3)
	verifAssume(verifNoByte(lead, '\n'))
	verifAssume(verifNoByte(lead, '\r'))
	verifAssume(verifNoByte(tail, '\n'))
	verifAssume(verifNoByte(tail, '\r'))
	var c *ast.Comment
	if nondetChoice("style", 2) == 0 {
		c = &ast.Comment{Text: "//" + lead + "goverter:converter" + tail}
	} else {
		c = &ast.Comment{Text: "/*" + lead + "goverter:converter" + tail + "*/"}
		for i := 0; i+1 < len(tail); i++ {
			verifAssume(!(tail[i] == '*' && tail[i+1] == '/'))
		}
		verifAssume(!(len(tail) > 0 && tail[len(tail)-1] == '*'))
		verifAssume(!(len(lead) > 0 && lead[len(lead)-1] == '/'))
	}
	doc := CommentToString(&ast.CommentGroup{List: []*ast.Comment{c}})
	settings := SettingLines(doc)
	isSetting := false
	for _, s := range settings {
		if len(s) >= 9 && s[:9] == "converter" {
			isSetting = true
		}
	}
	if isSetting {
		verifReach("marker-setting")
		verifAssert("marker-visible-to-declaration-scan", VerifModelContains(doc, "goverter:converter"))
	}
}
