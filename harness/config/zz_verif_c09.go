//go:build verif

package config

// Harness for C09 (kernel K10, config part): the functions registered by a `goverter:extend` line keep the
// order in which the loader found them (pattern by pattern, each in the loader's deterministic order),
// whatever the iteration order of any map used on the way.

import (
	"github.com/jmattheis/goverter/method"
)

func VerifHarness_C09_ExtendOrder() {
	n1 := 1 + nondetChoice("first-pattern.matches", 3)
	n2 := nondetChoice("second-pattern.matches", 3)
	ids := []string{"func example.org/in.A", "func example.org/in.B", "func example.org/in.C", "func example.org/in.D", "func example.org/in.E", "func example.org/in.F"}
	mk := func(from, n int) []*method.Definition {
		var out []*method.Definition
		for i := 0; i < n; i++ {
			out = append(out, &method.Definition{ID: ids[from+i], Name: ids[from+i][len(ids[from+i])-1:]})
		}
		return out
	}
	first, second := mk(0, n1), mk(3, n2)
	run := func() []*method.Definition {
		verifStubReturn("(*github.com/jmattheis/goverter/pkgload.PackageLoader).GetMatching", first, nil)
		line := "extend First.*"
		if n2 > 0 {
			verifStubReturn("(*github.com/jmattheis/goverter/pkgload.PackageLoader).GetMatching", second, nil)
			line = "extend First.* Second.*"
		}
		ctx := &context{WorkDir: "/work"}
		c := &Converter{ConverterConfig: DefaultConfigInterface, Location: "conv.go:1", FileName: "/work/in.go", Package: "example.org/in"}
		err := parseConverterLine(ctx, c, line)
		verifAssert("extend-accepted", err == nil)
		return c.Extend
	}
	a, b := run(), run()
	verifReach("extended")
	want := append(append([]*method.Definition{}, first...), second...)
	verifAssert("every-function-registered", len(a) == len(want) && len(b) == len(want))
	for i := 0; i < len(want) && i < len(a) && i < len(b); i++ {
		verifAssert("registration-order-is-the-loader-order", a[i] == want[i])
		verifAssert("registration-order-repeatable", a[i] == b[i])
	}
}
