//go:build verif

package config

// Harness for C15 / C19 (kernel K8.converterlines): the setting lines of a converter are applied in source
// order, the last output:file / output:package line wins whatever came before it, and an extend line is
// resolved with the settings in effect at its line.

import (
	"errors"

	"github.com/jmattheis/goverter/method"
	"github.com/jmattheis/goverter/pkgload"
)

var verifConverterLineMenu = []string{
	"",
	"output:package :custom",
	"output:package example.org/p",
	"output:package example.org/p:nm",
	"output:file ../out/conv.go",
	"arg:context:regex ^ctx",
	"extend F",
	"arg:context:regex ^other",
}

func VerifHarness_C15_ConverterLines() {
	const getMatching = "(*github.com/jmattheis/goverter/pkgload.PackageLoader).GetMatching"
	var picks [3]int
	for i := range picks {
		picks[i] = nondetChoice("line", len(verifConverterLineMenu))
	}
	firstGlobal := nondetBool("first-line-is-global")

	var global, own RawLines
	own.Location = "in.go:3"
	global.Location = "command line (-g)"
	// one of the extend lines may name a function that cannot be resolved: the diagnostic names where the line
	// was written (the doc comment or the command line)
	failing := nondetChoice("failing-extend-line", 4) // 3: none
	extendSeen := 0
	_ = extendSeen
	for i, p := range picks {
		if p == 0 {
			continue
		}
		if i == 0 && firstGlobal {
			global.Lines = append(global.Lines, verifConverterLineMenu[p])
		} else {
			own.Lines = append(own.Lines, verifConverterLineMenu[p])
		}
		if p == 6 {
			if i == failing {
				verifStubReturn(getMatching, nil, errors.New("no function F"))
			} else {
				verifStubReturn(getMatching, []*method.Definition{{ID: "func example.org/m/in.F", Name: "F"}}, nil)
			}
			extendSeen++
		}
	}

	verifStubReturn("golang.org/x/tools/go/packages.Load", nil, nil)
	loader, lerr := pkgload.New("/work", "", []string{})
	verifAssert("loader", lerr == nil)
	ctx := &context{Loader: loader, WorkDir: "/work"}
	// the block has one variable: it inherits the converter's settings as they are after all lines were read
	raw := &RawConverter{PackagePath: "example.org/m/in", PackageName: "in", FileName: "/work/in/in.go", Converter: own, Methods: map[string]RawLines{"Conv": {Location: "in.go:9"}}}
	verifStubReturn("(*github.com/jmattheis/goverter/pkgload.PackageLoader).GetOneRaw", nil, verifObj(), nil)

	before := verifEffectCount("call:" + getMatching)
	c, err := parseConverter(ctx, raw, global)
	verifReach("parsed")
	if failing < 3 && picks[failing] == 6 {
		verifReach("failing-extend")
		verifAssert("unresolvable-extend-is-reported", err != nil)
		if err != nil {
			where := "in.go:3"
			if failing == 0 && firstGlobal {
				where = "command line (-g)"
			}
			verifAssert("diagnostic-names-where-the-line-was-written", VerifC15Contains(err.Error(), "\n    "+where+"\n"))
		}
		return
	}
	verifAssert("lines-accepted", err == nil && c != nil)
	if err != nil || c == nil {
		return
	}

	// reference: one pass in source order
	file := "in.gen.go"
	explicit, path, name := false, "", ""
	regex := ""
	var wantRegex []string
	for _, p := range picks {
		switch p {
		case 1:
			explicit, path, name = true, "", "custom"
		case 2:
			explicit, path, name = true, "example.org/p", ""
		case 3:
			explicit, path, name = true, "example.org/p", "nm"
		case 4:
			file = "../out/conv.go"
		case 5:
			regex = "^ctx"
		case 7:
			regex = "^other"
		case 6:
			wantRegex = append(wantRegex, regex)
		}
	}
	inferred := "example.org/m/in"
	if file != "in.gen.go" {
		inferred = "example.org/m/out"
	}

	verifAssert("last-output-file-wins", c.OutputFile == file)
	if explicit {
		verifReach("explicit-package")
		if path != "" {
			verifAssert("explicit-package-path-kept", c.OutputPackagePath == path)
		} else {
			verifAssert("package-path-follows-the-output-file", c.OutputPackagePath == inferred)
		}
		verifAssert("explicit-package-name-kept-whatever-the-line-order", c.OutputPackageName == name)
	} else {
		verifReach("inferred-package")
		verifAssert("package-path-follows-the-output-file", c.OutputPackagePath == inferred)
		if file == "in.gen.go" {
			verifAssert("default-file-of-a-variables-block-keeps-the-declaring-package-name", c.OutputPackageName == "in")
		} else {
			verifAssert("name-of-another-location-left-to-inference", c.OutputPackageName == "")
		}
	}

	calls := verifEffectCount("call:"+getMatching) - before
	verifAssert("every-extend-line-resolved-once", calls == len(wantRegex) && len(c.Extend) == len(wantRegex))
	for i := 0; i < calls && i < len(wantRegex); i++ {
		opts, ok := verifEffectArg("call:"+getMatching, before+i, 3).(*method.ParseOpts)
		verifAssert("extend-options-recorded", ok && opts != nil)
		if !ok || opts == nil {
			continue
		}
		// the functions are checked against the package the code is finally written to, wherever the extend line stands
		verifAssert("extend-checked-against-the-final-output-package", opts.OutputPackagePath == c.OutputPackagePath)
		if wantRegex[i] == "" {
			verifAssert("extend-uses-the-context-regex-in-effect-at-its-line", opts.ContextMatch == nil)
		} else {
			verifAssert("extend-uses-the-context-regex-in-effect-at-its-line", opts.ContextMatch != nil && opts.ContextMatch.String() == wantRegex[i])
		}
	}
	if regex == "" {
		verifAssert("final-context-regex", c.ArgContextRegex == nil)
	} else {
		verifAssert("final-context-regex", c.ArgContextRegex != nil && c.ArgContextRegex.String() == regex)
	}
	verifAssert("variable-parsed", len(c.Methods) == 1)
	if len(c.Methods) == 1 {
		m := c.Methods[0]
		if regex == "" {
			verifAssert("methods-inherit-the-final-context-regex", m.ArgContextRegex == nil)
		} else {
			verifAssert("methods-inherit-the-final-context-regex", m.ArgContextRegex != nil && m.ArgContextRegex.String() == regex)
		}
	}
}

func VerifC15Contains(s, sub string) bool {
	for i := 0; i+len(sub) <= len(s); i++ {
		if s[i:i+len(sub)] == sub {
			return true
		}
	}
	return false
}
