//go:build verif

package config

// Harness for C12 / C19 (kernel K6.methodlines): the setting lines of a method are applied in source order. A
// function named by goverter:map ... | FUNC or goverter:default is classified with the arg:context:regex in effect
// at its line (the converter's value until the method writes its own), and of two lines for one setting the lower
// one wins - whatever other lines stand between and around them.

import "github.com/jmattheis/goverter/method"

var verifMethodLineMenu = []string{
	"",
	"arg:context:regex ^ctx",
	"map A B | Lookup",
	"default NewTarget",
	"arg:context:regex ^other",
	"ignore X",
	"ignoreMissing",
	"ignoreMissing no",
	"autoMap Nested",
	"update:ignoreZeroValueField",
	"update:ignoreZeroValueField no",
	"update:ignoreZeroValueField:basic no",
	"update:ignoreZeroValueField:struct",
}

func VerifHarness_C12_MethodLines() {
	const getOne = "(*github.com/jmattheis/goverter/pkgload.PackageLoader).GetOne"
	var picks [4]int
	for i := range picks {
		picks[i] = nondetChoice("line", len(verifMethodLineMenu))
	}
	convRegex := nondetBool("converter-has-a-context-regex")
	var lines []string
	maps, defaults := 0, 0
	for _, p := range picks {
		if p == 0 {
			continue
		}
		lines = append(lines, verifMethodLineMenu[p])
		switch p {
		case 2:
			maps++
			verifStubReturn(getOne, &method.Definition{ID: "func example.org/in.Lookup", Name: "Lookup"}, nil)
		case 3:
			defaults++
			verifStubReturn(getOne, &method.Definition{ID: "func example.org/in.NewTarget", Name: "NewTarget"}, nil)
		}
	}
	// (a field mapped twice is an error of its own: one map line at most)
	verifAssume(maps <= 1)
	ctx := &context{WorkDir: "/work"}
	c := &Converter{ConverterConfig: DefaultConfigInterface, Location: "conv.go:1", FileName: "/work/in.go", Package: "example.org/in"}
	if convRegex {
		_ = parseConverterLines(ctx, c, "conv", RawLines{Location: "conv.go:1", Lines: []string{"arg:context:regex ^conv"}})
	}
	before := verifEffectCount("call:" + getOne)
	m, err := parseMethod(ctx, c, verifObj(), RawLines{Location: "conv.go:3", Lines: lines})
	verifReach("parsed")
	verifAssert("lines-accepted", err == nil && m != nil)
	if err != nil || m == nil {
		return
	}

	// reference: one pass in source order
	regex := ""
	if convRegex {
		regex = "^conv"
	}
	ignoreMissing := false
	zb, zs, zn := false, false, false
	var wantRegex []string
	for _, p := range picks {
		switch p {
		case 1:
			regex = "^ctx"
		case 4:
			regex = "^other"
		case 2, 3:
			wantRegex = append(wantRegex, regex)
		case 6:
			ignoreMissing = true
		case 7:
			ignoreMissing = false
		case 9:
			// the shorthand sets all three categories, whatever was written before
			zb, zs, zn = true, true, true
		case 10:
			zb, zs, zn = false, false, false
		case 11:
			zb = false
		case 12:
			zs = true
		}
	}
	calls := verifEffectCount("call:"+getOne) - before
	verifAssert("every-function-resolved-once", calls == len(wantRegex))
	for i := 0; i < calls && i < len(wantRegex); i++ {
		opts, ok := verifEffectArg("call:"+getOne, before+i, 3).(*method.ParseOpts)
		verifAssert("options-recorded", ok && opts != nil)
		if !ok || opts == nil {
			continue
		}
		if wantRegex[i] == "" {
			verifAssert("function-classified-with-the-context-regex-in-effect-at-its-line", opts.ContextMatch == nil)
		} else {
			verifAssert("function-classified-with-the-context-regex-in-effect-at-its-line", opts.ContextMatch != nil && opts.ContextMatch.String() == wantRegex[i])
		}
	}
	verifAssert("last-line-for-a-setting-wins", m.IgnoreMissing == ignoreMissing)
	verifAssert("shorthand-and-category-lines-apply-in-source-order", m.IgnoreBasicZeroValueField == zb && m.IgnoreStructZeroValueField == zs && m.IgnoreNillableZeroValueField == zn)
	if regex == "" {
		verifAssert("final-context-regex", m.ArgContextRegex == nil)
	} else {
		verifAssert("final-context-regex", m.ArgContextRegex != nil && m.ArgContextRegex.String() == regex)
	}
	verifAssert("map-line-recorded", (m.Fields["B"] != nil && m.Fields["B"].Function != nil) == (maps == 1))
	verifAssert("default-line-recorded", (m.Constructor != nil) == (defaults >= 1))
}
