//go:build verif

package config

// Harness for C12 (kernel K8.convertersindependent): the converters of one run are configured independently. The
// settings of a converter are those of the command line followed by its own lines - parsing another converter
// afterwards (its enum:exclude, struct:comment, output:raw lines, its flags) leaves them as they were.

import (
	"go/token"
	"go/types"

	"github.com/jmattheis/goverter/pkgload"
)

var verifIndependentMenu = []string{
	"",
	"enum:exclude example.org/a:Color",
	"enum:exclude example.org/b:Shape",
	"enum:exclude example.org/c:Size",
	"wrapErrors",
	"ignoreMissing",
	"output:raw // raw line",
	"output:file ./my out/conv.gen.go", // (two values: a faulty line, reported for the converter that carries it)
}

const verifIndependentFaulty = 7

func verifHasFaulty(picks []int) bool {
	for _, p := range picks {
		if p == verifIndependentFaulty {
			return true
		}
	}
	return false
}

type verifConvSummary struct {
	excludes     []string
	raw          int
	wrap, ignore bool
}

func verifSummary(c *Converter) verifConvSummary {
	s := verifConvSummary{raw: len(c.OutputRaw), wrap: c.WrapErrors, ignore: c.IgnoreMissing}
	for _, e := range c.Enum.Excludes {
		s.excludes = append(s.excludes, e.Path.String()+" "+e.Name.String())
	}
	return s
}

func verifSameSummary(a, b verifConvSummary) bool {
	if a.raw != b.raw || a.wrap != b.wrap || a.ignore != b.ignore || len(a.excludes) != len(b.excludes) {
		return false
	}
	for i := range a.excludes {
		if a.excludes[i] != b.excludes[i] {
			return false
		}
	}
	return true
}

func VerifHarness_C12_ConvertersIndependent() {
	var global RawLines
	global.Location = "command line (-g)"
	globalPick := nondetChoice("global", 4)
	switch globalPick {
	case 1:
		global.Lines = []string{"enum:exclude example.org/g:Global"}
	case 2:
		global.Lines = []string{"wrapErrors"}
	case 3:
		// a command-line setting that no variables block can take: an error for every converter of the run
		global.Lines = []string{"output:format function"}
	}
	mk := func(tag, pkg string) (*RawConverter, []int) {
		var own RawLines
		own.Location = pkg + ".go:3"
		var picks []int
		for i := 0; i < 2; i++ {
			p := nondetChoice(tag+".line", len(verifIndependentMenu))
			picks = append(picks, p)
			if p != 0 {
				own.Lines = append(own.Lines, verifIndependentMenu[p])
			}
		}
		return &RawConverter{PackagePath: "example.org/m/" + pkg, PackageName: pkg, FileName: "/work/" + pkg + "/in.go", Converter: own, Methods: map[string]RawLines{}}, picks
	}
	raw1, picks1 := mk("first", "one")
	raw2, picks2 := mk("second", "two")
	// the first converter may be an interface (it takes output:format function, a variables block does not)
	firstIsInterface := nondetBool("first-converter-is-an-interface")
	if firstIsInterface {
		raw1.InterfaceName = "Conv"
		ipkg := types.NewPackage("example.org/m/one", "one")
		named := types.NewNamed(types.NewTypeName(token.NoPos, ipkg, "Conv", nil), types.NewInterfaceType(nil, nil).Complete(), nil)
		verifStubReturn("(*github.com/jmattheis/goverter/pkgload.PackageLoader).GetOneRaw", nil, named.Obj(), nil)
	}

	verifStubReturn("golang.org/x/tools/go/packages.Load", nil, nil)
	loader, lerr := pkgload.New("/work", "", []string{})
	verifAssert("loader", lerr == nil)
	ctx := &context{Loader: loader, WorkDir: "/work"}

	c1, err1 := parseConverter(ctx, raw1, global)
	if globalPick == 3 {
		verifReach("unusable-command-line-setting")
		_, err2 := parseConverter(ctx, raw2, global)
		verifAssert("unusable-command-line-setting-reported-for-every-converter-that-cannot-take-it", (err1 != nil) == (!firstIsInterface || verifHasFaulty(picks1)) && err2 != nil)
		if err2 != nil {
			verifAssert("diagnostic-names-the-command-line", VerifC15Contains(err2.Error(), "command line (-g)"))
		}
		return
	}
	if verifHasFaulty(picks1) {
		verifReach("faulty-line")
		verifAssert("faulty-line-of-a-converter-is-reported", err1 != nil)
		return
	}
	verifAssert("first-converter-parsed", err1 == nil && c1 != nil)
	if err1 != nil || c1 == nil {
		return
	}
	before := verifSummary(c1)
	c2, err2 := parseConverter(ctx, raw2, global)
	verifReach("both-parsed")
	if verifHasFaulty(picks2) {
		verifAssert("faulty-line-of-a-converter-is-reported", err2 != nil)
		return
	}
	verifAssert("second-converter-parsed", err2 == nil && c2 != nil)
	if err2 != nil || c2 == nil {
		return
	}
	verifAssert("first-converter-unchanged-by-the-second", verifSameSummary(before, verifSummary(c1)))

	// reference: command line first, then the converter's own lines, in source order
	want := func(picks []int) verifConvSummary {
		var w verifConvSummary
		lines := append([]string{}, global.Lines...)
		for _, p := range picks {
			if p != 0 {
				lines = append(lines, verifIndependentMenu[p])
			}
		}
		for _, l := range lines {
			switch l {
			case "wrapErrors":
				w.wrap = true
			case "ignoreMissing":
				w.ignore = true
			case "output:raw // raw line":
				w.raw++
			default:
				w.excludes = append(w.excludes, l)
			}
		}
		return w
	}
	for k, pair := range []struct {
		c     *Converter
		picks []int
	}{{c1, picks1}, {c2, picks2}} {
		_ = k
		got, w := verifSummary(pair.c), want(pair.picks)
		verifAssert("flags-and-raw-lines-are-the-converters-own", got.raw == w.raw && got.wrap == w.wrap && got.ignore == w.ignore)
		verifAssert("exclude-patterns-are-the-converters-own", len(got.excludes) == len(w.excludes))
		for i := 0; i < len(got.excludes) && i < len(w.excludes); i++ {
			// "enum:exclude path:Name": the pattern carries that name
			name := w.excludes[i][len(w.excludes[i])-4:]
			verifAssert("exclude-pattern-in-line-order", VerifC15Contains(got.excludes[i], name))
		}
	}
}
