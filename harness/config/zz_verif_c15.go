//go:build verif

package config

// Harnesses for C15 (kernel K8, config part): output:package, output:file parsing and package resolution.

import (
	"go/types"
	"path/filepath"

	"github.com/jmattheis/goverter/pkgload"
	"golang.org/x/tools/go/packages"
)

// value-string bounds (bytes); the thorough tier raises them
var (
	VerifC15PackageMax = 6
	VerifC15FileMax    = 7
	VerifC15NameMax    = 8
)

// VerifHarness_C15_OutputPackage: `output:package [PATH][:NAME]` splits at the first colon.
func VerifHarness_C15_OutputPackage() {
	val := nondetString("value", VerifC15PackageMax)
	for i := 0; i < len(val); i++ {
		verifAssume(!verifSpace(val[i]))
	}
	verifAssume(len(val) >= 1)
	ctx := &context{WorkDir: "/work"}
	c := &Converter{ConverterConfig: DefaultConfigInterface, Location: "conv.go:1", FileName: "/work/in.go", Package: "example.org/in"}
	c.OutputPackageName = "previous"
	err := parseConverterLine(ctx, c, "output:package "+val)
	verifAssert("single-value-accepted", err == nil)
	idx := -1
	for i := 0; i < len(val); i++ {
		if val[i] == ':' {
			idx = i
			break
		}
	}
	if idx < 0 {
		verifReach("path-only")
		verifAssert("path-only", c.OutputPackagePath == val && c.OutputPackageName == "")
	} else {
		verifReach("path-and-name")
		verifAssert("split-at-first-colon", c.OutputPackagePath == val[:idx] && c.OutputPackageName == val[idx+1:])
	}
}

// VerifHarness_C15_OutputFile: `output:file` keeps the value unless it starts with @cwd/.
func VerifHarness_C15_OutputFile() {
	val := nondetString("value", VerifC15FileMax)
	for i := 0; i < len(val); i++ {
		verifAssume(!verifSpace(val[i]))
	}
	verifAssume(len(val) >= 1)
	ctx := &context{WorkDir: "/work"}
	c := &Converter{ConverterConfig: DefaultConfigInterface, Location: "conv.go:1", FileName: "/work/in.go", Package: "example.org/in"}
	err := parseConverterLine(ctx, c, "output:file "+val)
	if len(val) >= 5 && val[:5] == "@cwd/" {
		verifReach("cwd")
		return
	}
	// @cwd/ with a relative working directory: the result is an absolute path below it
	rel := &context{WorkDir: "rel/dir"}
	c2 := &Converter{ConverterConfig: DefaultConfigInterface, Location: "conv.go:1", FileName: "/work/in.go", Package: "example.org/in"}
	err2 := parseConverterLine(rel, c2, "output:file @cwd/out/gen.go")
	verifAssert("cwd-output-with-relative-working-directory-is-absolute", err2 == nil && filepathIsAbs(c2.OutputFile) && VerifModelHasSuffix(c2.OutputFile, "rel/dir/out/gen.go"))
	verifReach("plain")
	verifAssert("plain-output-file-kept", err == nil && c.OutputFile == val)
}

// VerifHarness_C15_ResolvePackage: explicit name > existing package at the location > inferred.
func VerifHarness_C15_ResolvePackage() {
	exists := nondetChoice("target-package-exists", 2) == 1
	var pkgs []*packages.Package
	if exists {
		pkgs = []*packages.Package{{PkgPath: "example.org/in/generated", Types: types.NewPackage("example.org/in/generated", "existing")}}
	}
	verifStubReturn("golang.org/x/tools/go/packages.Load", pkgs, nil)
	loader, err := pkgload.New("/work", "goverter", []string{"pattern=example.org/in/generated"})
	verifAssert("loader", err == nil)
	ctx := &context{Loader: loader, WorkDir: "/work"}
	c := &Converter{ConverterConfig: DefaultConfigInterface, Location: "conv.go:1", FileName: "/work/in/in.go", Package: "example.org/in"}
	explicitName := nondetChoice("explicit-name", 2) == 1
	explicitPath := nondetChoice("explicit-path", 2) == 1
	if explicitName {
		c.OutputPackageName = "explicit"
	}
	if explicitPath {
		c.OutputPackagePath = "example.org/elsewhere"
	}
	resolveOutputPackage(ctx, c)
	verifReach("resolved")
	if explicitPath {
		verifAssert("explicit-path-kept", c.OutputPackagePath == "example.org/elsewhere")
	} else {
		verifAssert("path-inferred-from-output-file", c.OutputPackagePath == "example.org/in/generated")
	}
	switch {
	case explicitName:
		verifAssert("explicit-name-wins", c.OutputPackageName == "explicit")
	case exists:
		verifAssert("existing-package-name-used", c.OutputPackageName == "existing")
	default:
		verifAssert("name-left-to-inference", c.OutputPackageName == "")
	}
}

func filepathIsAbs(p string) bool { return filepath.IsAbs(p) }

// VerifHarness_C15_DefaultOutputFile: a variables block in <dir>/<stem><ext> lands in <stem>.gen<ext>, where
// <ext> is the final extension only; an interface converter defaults to ./generated/generated.go.
func VerifHarness_C15_DefaultOutputFile() {
	file := nondetString("file", VerifC15NameMax)
	verifAssume(len(file) >= 1)
	for i := 0; i < len(file); i++ {
		verifAssume(file[i] != '/' && file[i] != 0)
	}
	// the result depends on the file name only, not on where the file lives
	dir := []string{"/work/pkg/", "/src/nats.go/conv/", "/home/u.gen/x.golang/", ""}[nondetChoice("directory", 4)]
	got := defaultOutputFile(dir + file)
	last := -1
	for i := 0; i < len(file); i++ {
		if file[i] == '.' {
			last = i
		}
	}
	if last < 0 {
		verifReach("no-extension")
		verifAssert("gen-appended-without-extension", got == file+".gen")
	} else {
		verifReach("extension")
		verifAssert("gen-inserted-before-the-final-extension", got == file[:last]+".gen"+file[last:])
	}
}

// VerifHarness_C15_GetPackages: the packages pre-loaded for a run contain, for every converter, its own package,
// the default ./generated package, the package its output:file selects (written on the converter or globally)
// and the package of every function named by extend / map|FUNC / default - so that "the existing package at
// that location" can be found for each of them.
func VerifHarness_C15_GetPackages() {
	n := 1 + nondetChoice("converters", 2)
	globalFile := nondetChoice("global.output:file", 3) // 0 none, 1 relative, 2 @cwd/
	globalExtend := nondetChoice("global.extend", 2) == 1
	raw := &Raw{WorkDir: "/work"}
	if globalFile == 1 {
		raw.Global.Lines = append(raw.Global.Lines, "output:file ./earlier/gen.go", "output:file ./out/gen.go")
	} else if globalFile == 2 {
		raw.Global.Lines = append(raw.Global.Lines, "output:file @cwd/shared/gen.go")
	}
	if globalExtend {
		raw.Global.Lines = append(raw.Global.Lines, "extend example.org/glob:F")
	}
	names := []string{"a", "b", "c"}
	ownFile := make([]int, n)
	ownExtend := make([]bool, n)
	methodFn := make([]int, n)
	for i := 0; i < n; i++ {
		rc := RawConverter{PackagePath: "example.org/m/" + names[i], FileName: "/work/" + names[i] + "/in.go", Methods: map[string]RawLines{}}
		ownFile[i] = nondetChoice("converter.output:file", 3)
		if ownFile[i] == 2 {
			// two lines on one level: the last one decides where the file goes (and which package is looked at)
			rc.Converter.Lines = append(rc.Converter.Lines, "output:file ../first"+names[i]+"/x.go")
		}
		if ownFile[i] >= 1 {
			rc.Converter.Lines = append(rc.Converter.Lines, "output:file ../gen"+names[i]+"/x.go")
		}
		ownExtend[i] = nondetChoice("converter.extend", 2) == 1
		if ownExtend[i] {
			rc.Converter.Lines = append(rc.Converter.Lines, "extend example.org/ext"+names[i]+":F Local")
		}
		methodFn[i] = nondetChoice("method.function", 3)
		switch methodFn[i] {
		case 1:
			rc.Methods["M"] = RawLines{Lines: []string{"map A B | example.org/fn" + names[i] + ":F"}}
		case 2:
			rc.Methods["M"] = RawLines{Lines: []string{"default example.org/fn" + names[i] + ":F"}}
		}
		raw.Converters = append(raw.Converters, rc)
	}
	got := map[string]bool{}
	for _, p := range getPackages(raw) {
		got[p] = true
	}
	verifReach("packages")
	for i := 0; i < n; i++ {
		pkg := "example.org/m/" + names[i]
		verifAssert("own-package-loaded", got["pattern="+pkg])
		verifAssert("default-generated-package-loaded", got["pattern="+pkg+"/generated"])
		if ownFile[i] >= 1 {
			verifAssert("converter-output-file-package-loaded", got["pattern=example.org/m/gen"+names[i]])
		}
		if globalFile == 1 {
			verifAssert("global-relative-output-file-package-loaded-for-every-converter", got["pattern="+pkg+"/out"])
		}
		if globalFile == 2 {
			verifAssert("global-cwd-output-file-package-loaded", got["pattern=example.org/m/shared"])
		}
		if ownExtend[i] {
			verifAssert("extend-package-loaded", got["pattern=example.org/ext"+names[i]])
		}
		if methodFn[i] != 0 {
			verifAssert("method-function-package-loaded", got["pattern=example.org/fn"+names[i]])
		}
	}
	if globalExtend {
		verifAssert("global-extend-package-loaded", got["pattern=example.org/glob"])
	}
}

// VerifHarness_C15_ResolveTarget: the package of an absolute (@cwd/ or literal) output file is the declaring
// package moved along the directory path from the declaring file to the target - directories are compared as
// path elements, so siblings whose names merely start alike (conv, convgen, con) are different packages.
func VerifHarness_C15_ResolveTarget() {
	dirs := []string{"conv", "convgen", "con", "conv/gen", "c", "conv/sub", "conv/subx", "other/conv", "convgen/conv"}
	a := nondetChoice("declaring-directory", len(dirs))
	b := nondetChoice("target-directory", len(dirs))
	got, err := resolvePackage("/m/"+dirs[a]+"/in.go", "example.org/m/"+dirs[a], "/m/"+dirs[b]+"/gen.go")
	verifReach("resolved")
	verifAssert("absolute-target-resolves", err == nil)
	verifAssert("package-follows-the-directory-path", got == "example.org/m/"+dirs[b])
	// the module root itself
	got, err = resolvePackage("/m/"+dirs[a]+"/in.go", "example.org/m/"+dirs[a], "/m/gen.go")
	verifAssert("module-root-target", err == nil && got == "example.org/m")
	// relative targets are taken from the declaring directory
	got, err = resolvePackage("/m/"+dirs[a]+"/in.go", "example.org/m/"+dirs[a], "./generated/generated.go")
	verifAssert("relative-target-below", err == nil && got == "example.org/m/"+dirs[a]+"/generated")
	got, err = resolvePackage("/m/"+dirs[a]+"/in.go", "example.org/m/"+dirs[a], "x.gen.go")
	verifAssert("relative-target-beside", err == nil && got == "example.org/m/"+dirs[a])
}
