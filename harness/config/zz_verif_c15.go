//go:build verif

package config

// Harnesses for C15 (kernel K8, config part): output:package, output:file parsing and package resolution.

import (
	"go/types"
	"path/filepath"

	"github.com/jmattheis/goverter/pkgload"
	"golang.org/x/tools/go/packages"
)

// VerifHarness_C15_OutputPackage: `output:package [PATH][:NAME]` splits at the first colon.
func VerifHarness_C15_OutputPackage() {
	val := nondetString("value", 6)
	for i := 0; i < len(val); i++ {
		verifAssume(!verifSpace(val[i]))
	}
	verifAssume(len(val) >= 1)
	ctx := &context{WorkDir: "/work"}
	c := &Converter{ConverterConfig: DefaultConfigInterface, Location: "conv.go:1", FileName: "/work/in.go", Package: "example.org/in"}
	c.OutputPackageName = "previous"
	err := parseConverterLine(ctx, c, "output:package "+val)
	verifAssert("single-value-accepted", err == nil)
	idx := -1
	for i := 0; i < len(val); i++ {
		if val[i] == ':' {
			idx = i
			break
		}
	}
	if idx < 0 {
		verifReach("path-only")
		verifAssert("path-only", c.OutputPackagePath == val && c.OutputPackageName == "")
	} else {
		verifReach("path-and-name")
		verifAssert("split-at-first-colon", c.OutputPackagePath == val[:idx] && c.OutputPackageName == val[idx+1:])
	}
}

// VerifHarness_C15_OutputFile: `output:file` keeps the value unless it starts with @cwd/.
func VerifHarness_C15_OutputFile() {
	val := nondetString("value", 7)
	for i := 0; i < len(val); i++ {
		verifAssume(!verifSpace(val[i]))
	}
	verifAssume(len(val) >= 1)
	ctx := &context{WorkDir: "/work"}
	c := &Converter{ConverterConfig: DefaultConfigInterface, Location: "conv.go:1", FileName: "/work/in.go", Package: "example.org/in"}
	err := parseConverterLine(ctx, c, "output:file "+val)
	if len(val) >= 5 && val[:5] == "@cwd/" {
		verifReach("cwd")
		return
	}
	// @cwd/ with a relative working directory: the result is an absolute path below it
	rel := &context{WorkDir: "rel/dir"}
	c2 := &Converter{ConverterConfig: DefaultConfigInterface, Location: "conv.go:1", FileName: "/work/in.go", Package: "example.org/in"}
	err2 := parseConverterLine(rel, c2, "output:file @cwd/out/gen.go")
	verifAssert("cwd-output-with-relative-working-directory-is-absolute", err2 == nil && filepathIsAbs(c2.OutputFile) && VerifModelHasSuffix(c2.OutputFile, "rel/dir/out/gen.go"))
	verifReach("plain")
	verifAssert("plain-output-file-kept", err == nil && c.OutputFile == val)
}

// VerifHarness_C15_ResolvePackage: explicit name > existing package at the location > inferred.
func VerifHarness_C15_ResolvePackage() {
	exists := nondetChoice("target-package-exists", 2) == 1
	var pkgs []*packages.Package
	if exists {
		pkgs = []*packages.Package{{PkgPath: "example.org/in/generated", Types: types.NewPackage("example.org/in/generated", "existing")}}
	}
	verifStubReturn("golang.org/x/tools/go/packages.Load", pkgs, nil)
	loader, err := pkgload.New("/work", "goverter", []string{"pattern=example.org/in/generated"})
	verifAssert("loader", err == nil)
	ctx := &context{Loader: loader, WorkDir: "/work"}
	c := &Converter{ConverterConfig: DefaultConfigInterface, Location: "conv.go:1", FileName: "/work/in/in.go", Package: "example.org/in"}
	explicitName := nondetChoice("explicit-name", 2) == 1
	explicitPath := nondetChoice("explicit-path", 2) == 1
	if explicitName {
		c.OutputPackageName = "explicit"
	}
	if explicitPath {
		c.OutputPackagePath = "example.org/elsewhere"
	}
	resolveOutputPackage(ctx, c)
	verifReach("resolved")
	if explicitPath {
		verifAssert("explicit-path-kept", c.OutputPackagePath == "example.org/elsewhere")
	} else {
		verifAssert("path-inferred-from-output-file", c.OutputPackagePath == "example.org/in/generated")
	}
	switch {
	case explicitName:
		verifAssert("explicit-name-wins", c.OutputPackageName == "explicit")
	case exists:
		verifAssert("existing-package-name-used", c.OutputPackageName == "existing")
	default:
		verifAssert("name-left-to-inference", c.OutputPackageName == "")
	}
}

func filepathIsAbs(p string) bool { return filepath.IsAbs(p) }
