//go:build verif

package config

// Harnesses for C12 (settings resolve method > converter > CLI, validated where written).
// Kernel K6: parseCommon, parseConverterLine(s), parseMethodLine, parseMethod (method.Parse stubbed),
// parse.Command/Bool/Enum/String are executed symbolically from the current source.

import (
	"go/token"
	"go/types"

	"github.com/jmattheis/goverter/enum"
)

// a real go/types object for diagnostics (parseMethod only uses it for messages once method.Parse is stubbed)
func verifObj() types.Object {
	pkg := types.NewPackage("example.org/in", "in")
	sig := types.NewSignatureType(nil, nil, nil,
		types.NewTuple(types.NewParam(token.NoPos, pkg, "source", types.Typ[types.Int])),
		types.NewTuple(types.NewParam(token.NoPos, pkg, "", types.Typ[types.String])), false)
	return types.NewFunc(token.NoPos, pkg, "Convert", sig)
}

// value-string bounds (bytes); the thorough tier raises them
var (
	VerifC12StepMax  = 5
	VerifC12NameTail = 4
	VerifC12ChainMax = 3
)

// boolean inheritable settings and the Common field(s) each designates
var verifBoolKeys = []string{
	"wrapErrors",                           // 0
	"ignoreUnexported",                     // 1
	"update:ignoreZeroValueField",          // 2 (fans out to three fields)
	"update:ignoreZeroValueField:basic",    // 3
	"update:ignoreZeroValueField:struct",   // 4
	"update:ignoreZeroValueField:nillable", // 5
	"default:update",                       // 6
	"matchIgnoreCase",                      // 7
	"ignoreMissing",                        // 8
	"skipCopySameType",                     // 9
	"useZeroValueOnPointerInconsistency",   // 10
	"useUnderlyingTypeMethods",             // 11
	"enum",                                 // 12
}

// verifBools projects the boolean settings of a Common in the order used by verifDesignated.
func verifBools(c *Common) [12]bool {
	return [12]bool{
		c.WrapErrors, c.IgnoreUnexported, c.IgnoreBasicZeroValueField, c.IgnoreStructZeroValueField,
		c.IgnoreNillableZeroValueField, c.DefaultUpdate, c.MatchIgnoreCase, c.IgnoreMissing,
		c.SkipCopySameType, c.UseZeroValueOnPointerInconsistency, c.UseUnderlyingTypeMethods, c.Enum.Enabled,
	}
}

// verifDesignated: which positions of verifBools a key writes (documented in docs/reference/*.md).
func verifDesignated(key int) [12]bool {
	var d [12]bool
	switch key {
	case 0:
		d[0] = true
	case 1:
		d[1] = true
	case 2:
		d[2], d[3], d[4] = true, true, true
	case 3:
		d[2] = true
	case 4:
		d[3] = true
	case 5:
		d[4] = true
	case 6:
		d[5] = true
	case 7:
		d[6] = true
	case 8:
		d[7] = true
	case 9:
		d[8] = true
	case 10:
		d[9] = true
	case 11:
		d[10] = true
	case 12:
		d[11] = true
	}
	return d
}

func verifSpace(c byte) bool {
	return c == ' ' || c == '\t' || c == '\n' || c == '\v' || c == '\f' || c == '\r'
}

// verifSpecBool is the documented reading of a boolean value: nothing or `yes` enables, `no` disables,
// anything else (other word, two values) is an error.  Independent of parse.Bool.
func verifSpecBool(rest string) (val bool, ok bool) {
	nfields := 0
	fs, fe := 0, 0
	in := false
	for i := 0; i < len(rest); i++ {
		if verifSpace(rest[i]) {
			if in {
				in = false
				fe = i
			}
		} else if !in {
			in = true
			nfields++
			if nfields == 1 {
				fs = i
				fe = len(rest)
			}
		}
	}
	if nfields == 0 {
		return true, true
	}
	if nfields > 1 {
		return false, false
	}
	w := rest[fs:fe]
	if w == "yes" {
		return true, true
	}
	if w == "no" {
		return false, true
	}
	return false, false
}

func verifArbitraryCommon(tag string) Common {
	c := Common{
		WrapErrors:                         nondetBool(tag + ".WrapErrors"),
		IgnoreUnexported:                   nondetBool(tag + ".IgnoreUnexported"),
		IgnoreBasicZeroValueField:          nondetBool(tag + ".IgnoreBasic"),
		IgnoreStructZeroValueField:         nondetBool(tag + ".IgnoreStruct"),
		IgnoreNillableZeroValueField:       nondetBool(tag + ".IgnoreNillable"),
		MatchIgnoreCase:                    nondetBool(tag + ".MatchIgnoreCase"),
		IgnoreMissing:                      nondetBool(tag + ".IgnoreMissing"),
		SkipCopySameType:                   nondetBool(tag + ".SkipCopySameType"),
		UseZeroValueOnPointerInconsistency: nondetBool(tag + ".UseZero"),
		UseUnderlyingTypeMethods:           nondetBool(tag + ".UseUnderlying"),
		DefaultUpdate:                      nondetBool(tag + ".DefaultUpdate"),
		Enum:                               enum.Config{Enabled: nondetBool(tag + ".EnumEnabled")},
	}
	if nondetChoice(tag+".hasUsing", 2) == 1 {
		c.WrapErrorsUsing = "some/pkg"
	}
	if nondetChoice(tag+".hasUnknown", 2) == 1 {
		c.Enum.Unknown = "@error"
	}
	return c
}

// VerifHarness_C12_Step: one parseCommon step from an arbitrary pre-state (C12 a).
func VerifHarness_C12_Step() {
	c := verifArbitraryCommon("pre")
	pre := c
	key := nondetChoice("key", len(verifBoolKeys))
	rest := nondetString("rest", VerifC12StepMax)

	_, err := parseCommon(&c, verifBoolKeys[key], rest)

	want, ok := verifSpecBool(rest)
	conflict := key == 0 && pre.WrapErrorsUsing != ""
	if conflict {
		verifReach("conflict")
		verifAssert("wrapErrors-with-wrapErrorsUsing-is-error", err != nil)
		return
	}
	verifAssert("error-iff-malformed", (err != nil) == !ok)
	if !ok {
		verifReach("malformed")
		return
	}
	verifReach("wellformed")
	before, after, d := verifBools(&pre), verifBools(&c), verifDesignated(key)
	for i := 0; i < 12; i++ {
		if d[i] {
			verifAssert("designated-field-gets-value", after[i] == want)
		} else {
			verifAssert("other-fields-untouched", after[i] == before[i])
		}
	}
	verifAssert("strings-untouched", c.WrapErrorsUsing == pre.WrapErrorsUsing && c.Enum.Unknown == pre.Enum.Unknown)
}

var verifOtherKeys = []string{
	"", "nope", "wraperrors", "wrapErrors:x", "update", "map", "ignore", "context", "enum:map", "enum:transform", "autoMap", "default",
	"converter", "variables", "name", "output:raw", "output:file", "output:format", "output:package", "struct:comment", "enum:exclude", "extend",
}

// VerifHarness_C12_Unknown: keys outside the inheritable set are rejected by parseCommon and change nothing.
func VerifHarness_C12_Unknown() {
	c := verifArbitraryCommon("pre")
	pre := c
	key := nondetChoice("key", len(verifOtherKeys))
	rest := nondetString("rest", 4)
	_, err := parseCommon(&c, verifOtherKeys[key], rest)
	verifAssert("unknown-key-is-error", err != nil)
	verifAssert("unknown-key-changes-nothing", verifBools(&c) == verifBools(&pre) && c.WrapErrorsUsing == pre.WrapErrorsUsing && c.Enum.Unknown == pre.Enum.Unknown)
	verifReach("done")
}

// VerifHarness_C12_Strings: wrapErrorsUsing / enum:unknown / arg:context:regex take exactly one value.
func VerifHarness_C12_Strings() {
	c := verifArbitraryCommon("pre")
	pre := c
	key := nondetChoice("key", 3)
	rest := nondetString("rest", VerifC12StepMax)
	// reference: number of white-space separated fields
	nfields := 0
	in := false
	first := 0
	for i := 0; i < len(rest); i++ {
		if verifSpace(rest[i]) {
			in = false
		} else if !in {
			in = true
			nfields++
			if nfields == 1 {
				first = i
			}
		}
	}
	switch key {
	case 0:
		_, err := parseCommon(&c, "wrapErrorsUsing", rest)
		if pre.WrapErrors {
			verifAssert("wrapErrorsUsing-with-wrapErrors-is-error", err != nil)
			return
		}
		verifAssert("wrapErrorsUsing-one-value", (err == nil) == (nfields == 1))
		if err == nil {
			verifReach("using-ok")
			verifAssert("wrapErrorsUsing-value-nonempty", c.WrapErrorsUsing != "")
			verifAssert("wrapErrorsUsing-others-untouched", verifBools(&c) == verifBools(&pre) && c.Enum.Unknown == pre.Enum.Unknown)
		}
	case 1:
		_, err := parseCommon(&c, "enum:unknown", rest)
		if nfields != 1 {
			verifAssert("enum:unknown-one-value", err != nil)
			return
		}
		if rest[first] == '@' {
			verifReach("action")
			valid := c.Enum.Unknown == "@panic" || c.Enum.Unknown == "@error" || c.Enum.Unknown == "@ignore"
			verifAssert("enum:unknown-action-validated", (err == nil) == valid)
		} else {
			verifAssert("enum:unknown-key-accepted", err == nil)
		}
	case 2:
		_, err := parseCommon(&c, "arg:context:regex", rest)
		if nfields != 1 {
			verifAssert("regex-one-value", err != nil)
		}
		if err == nil {
			verifReach("regex-ok")
			verifAssert("regex-set", c.ArgContextRegex != nil)
		}
	}
}

// level line: absent, or "<key>" + " " + value
func verifLevelLine(tag, key string) (lines []string, present bool, val bool, ok bool) {
	if nondetChoice(tag+".present", 2) == 0 {
		return nil, false, false, true
	}
	rest := nondetString(tag+".value", VerifC12ChainMax)
	val, ok = verifSpecBool(rest)
	if len(rest) == 0 && nondetChoice(tag+".bare", 2) == 0 {
		return []string{key}, true, val, ok
	}
	return []string{key + " " + rest}, true, val, ok
}

func verifGet(c *Common, key int) bool {
	b, d := verifBools(c), verifDesignated(key)
	for i := 0; i < 12; i++ {
		if d[i] {
			return b[i]
		}
	}
	return false
}

func verifAllDesignatedEqual(c *Common, key int, want bool) bool {
	b, d := verifBools(c), verifDesignated(key)
	res := true
	for i := 0; i < 12; i++ {
		if d[i] {
			res = verifAnd(res, b[i] == want)
		}
	}
	return res
}

// VerifHarness_C12_Chain: the value in effect for a method is method > converter > CLI > default; a sibling
// method and a second converter with other lines are unaffected (C12 b).
func VerifHarness_C12_Chain() {
	key := nondetChoice("key", len(verifBoolKeys))
	k := verifBoolKeys[key]
	gl, gp, gv, gok := verifLevelLine("cli", k)
	verifAssume(gok)
	cl, cp, cv, cok := verifLevelLine("conv", k)
	verifAssume(cok)
	ml, mp, mv, mok := verifLevelLine("method", k)
	verifAssume(mok)

	ctx := &context{}
	c := &Converter{ConverterConfig: DefaultConfigInterface, Location: "conv.go:1"}
	err := parseConverterLines(ctx, c, "global", RawLines{Location: "cli", Lines: gl})
	verifAssert("cli-line-accepted", err == nil)
	err = parseConverterLines(ctx, c, "conv", RawLines{Location: "conv.go:1", Lines: cl})
	verifAssert("converter-line-accepted", err == nil)
	m, err := parseMethod(ctx, c, verifObj(), RawLines{Location: "conv.go:3", Lines: ml})
	verifAssert("method-line-accepted", err == nil)
	// sibling without own line, parsed afterwards from the same converter
	sib, err := parseMethod(ctx, c, verifObj(), RawLines{Location: "conv.go:5"})
	verifAssert("sibling-accepted", err == nil)
	// a second converter seeing only the CLI lines
	c2 := &Converter{ConverterConfig: DefaultConfigInterface, Location: "other.go:1"}
	err = parseConverterLines(ctx, c2, "global", RawLines{Location: "cli", Lines: gl})
	verifAssert("cli-line-accepted-2", err == nil)
	m2, err := parseMethod(ctx, c2, verifObj(), RawLines{Location: "other.go:3"})
	verifAssert("method2-accepted", err == nil)

	def := verifGet(&DefaultCommon, key)
	want := def
	if gp {
		want = gv
	}
	want2 := want // second converter: CLI or default
	if cp {
		want = cv
	}
	wantSib := want // sibling: converter, CLI or default
	if mp {
		want = mv
	}
	verifReach("chain")
	verifAssert("method-value-is-method>converter>cli>default", verifAllDesignatedEqual(&m.Common, key, want))
	verifAssert("sibling-unaffected-by-method-line", verifAllDesignatedEqual(&sib.Common, key, wantSib))
	verifAssert("second-converter-unaffected", verifAllDesignatedEqual(&m2.Common, key, want2))
	verifAssert("converter-common-unaffected-by-method-line", verifAllDesignatedEqual(&c.Common, key, wantSib))
	// settings that concern struct fields are remembered with the method they were written on - whatever their
	// value - so that they can be rejected on methods that do not convert a struct themselves
	fieldKey := k == "ignoreUnexported" || k == "update:ignoreZeroValueField" || k == "matchIgnoreCase" || k == "ignoreMissing"
	if mp && fieldKey {
		verifAssert("field-setting-recorded-where-written", len(m.RawFieldSettings) == 1)
	}
	if !mp || !fieldKey {
		verifAssert("no-field-setting-recorded-otherwise", len(m.RawFieldSettings) == 0)
	}
	verifAssert("sibling-has-no-field-setting", len(sib.RawFieldSettings) == 0)
	// nothing else moved away from the defaults
	b, d, db := verifBools(&m.Common), verifDesignated(key), verifBools(&DefaultCommon)
	for i := 0; i < 12; i++ {
		if !d[i] {
			verifAssert("unrelated-settings-keep-default", b[i] == db[i])
		}
	}
}

var verifMethodOnly = []string{"map", "ignore", "update", "context", "enum:map", "enum:transform", "autoMap", "default"}
var verifConverterOnly = []string{"name", "output:raw", "output:file", "output:format", "output:package", "struct:comment", "enum:exclude", "extend"}

// VerifHarness_C12_WrongLevel: a setting written where it is not allowed is an error (C12 c).
func VerifHarness_C12_WrongLevel() {
	ctx := &context{}
	c := &Converter{ConverterConfig: DefaultConfigInterface, Location: "conv.go:1"}
	rest := nondetString("rest", 3)
	if nondetChoice("side", 2) == 0 {
		k := verifMethodOnly[nondetChoice("key", len(verifMethodOnly))]
		err := parseConverterLines(ctx, c, "conv", RawLines{Location: "conv.go:1", Lines: []string{k + " " + rest}})
		verifReach("method-only-on-converter")
		verifAssert("method-only-setting-on-converter-is-error", err != nil)
	} else {
		k := verifConverterOnly[nondetChoice("key", len(verifConverterOnly))]
		_, err := parseMethod(ctx, c, verifObj(), RawLines{Location: "conv.go:3", Lines: []string{k + " " + rest}})
		verifReach("converter-only-on-method")
		verifAssert("converter-only-setting-on-method-is-error", err != nil)
	}
}

var verifCommonKeys = []string{"wrapErrors", "wrapErrorsUsing", "ignoreUnexported", "update:ignoreZeroValueField", "update:ignoreZeroValueField:basic",
	"update:ignoreZeroValueField:struct", "update:ignoreZeroValueField:nillable", "default:update", "matchIgnoreCase", "ignoreMissing", "skipCopySameType",
	"useZeroValueOnPointerInconsistency", "useUnderlyingTypeMethods", "enum", "arg:context:regex", "enum:unknown"}

var verifNamePrefixes = []string{"", "output:", "enum:", "arg:", "arg:context:", "update:", "update:ignoreZeroValueField:", "default:", "struct:", "wrapErrors"}

// VerifHarness_C12_UnknownName: a line whose setting name is none of the documented ones - however close it is
// to one (a known prefix followed by arbitrary bytes) - is an error on the converter and on a method.
func VerifHarness_C12_UnknownName() {
	prefix := verifNamePrefixes[nondetChoice("prefix", len(verifNamePrefixes))]
	tail := nondetString("tail", VerifC12NameTail)
	for i := 0; i < len(tail); i++ {
		verifAssume(!verifSpace(tail[i]) && tail[i] != 0)
	}
	name := prefix + tail
	// the value is one every boolean / string setting would accept, or none: only the name can be at fault
	value := []string{" yes", "", " no"}[nondetChoice("value", 3)]
	for _, k := range verifCommonKeys {
		verifAssume(name != k)
	}
	ctx := &context{WorkDir: "/work"}
	c := &Converter{ConverterConfig: DefaultConfigInterface, Location: "conv.go:1", FileName: "/work/in.go", Package: "example.org/in"}
	if nondetChoice("level", 2) == 0 {
		for _, k := range verifConverterOnly {
			verifAssume(name != k)
		}
		verifAssume(name != "converter" && name != "variables")
		err := parseConverterLines(ctx, c, "conv", RawLines{Location: "conv.go:1", Lines: []string{name + value}})
		verifReach("converter-level")
		verifAssert("unknown-name-on-converter-is-error", err != nil)
	} else {
		for _, k := range verifMethodOnly {
			verifAssume(name != k)
		}
		_, err := parseMethod(ctx, c, verifObj(), RawLines{Location: "conv.go:3", Lines: []string{name + value}})
		verifReach("method-level")
		verifAssert("unknown-name-on-method-is-error", err != nil)
	}
}
