//go:build verif

package config

// Harness for C09 (kernel K10, config part): the variables of a `goverter:variables` block are parsed in an
// order that does not depend on the iteration order of the map they are collected in. With more than one
// faulty variable the reported one is then the same in every run, and the parsed methods keep one order.

import (
	"errors"
	"go/token"
	"go/types"

	"github.com/jmattheis/goverter/method"
)

func VerifHarness_C09_VariablesOrder() {
	n := 2 + nondetChoice("variables", 2)
	names := []string{"ToA", "ToB", "ToC"}
	faulty := []bool{nondetBool("ToA.faulty"), nondetBool("ToB.faulty"), nondetBool("ToC.faulty")}
	raw := &RawConverter{Methods: map[string]RawLines{}}
	for i := 0; i < n; i++ {
		l := RawLines{Location: "conv.go:1" + names[i][2:]}
		if faulty[i] {
			l.Lines = []string{"bogus" + names[i]}
		}
		raw.Methods[names[i]] = l
	}
	obj := types.NewVar(token.NoPos, nil, "v", nil)
	const getOne = "(*github.com/jmattheis/goverter/pkgload.PackageLoader).GetOneRaw"
	const format = "github.com/jmattheis/goverter/config.formatLineError"
	run := func() ([]*Method, error) {
		for i := 0; i < n; i++ {
			verifStubReturn(getOne, nil, obj, nil)
			verifStubReturn(format, errors.New("line error"))
		}
		ctx := &context{WorkDir: "/work"}
		c := &Converter{ConverterConfig: DefaultConfigVariables, Location: "conv.go:1", FileName: "/work/in.go", Package: "example.org/in"}
		err := parseMethods(ctx, raw, c)
		return c.Methods, err
	}
	before := verifEffectCount("call:" + format)
	a, errA := run()
	mid := verifEffectCount("call:" + format)
	b, errB := run()
	after := verifEffectCount("call:" + format)
	verifReach("parsed-twice")
	verifAssert("both-runs-agree-on-failure", (errA == nil) == (errB == nil))
	if errA != nil && errB != nil {
		verifAssert("one-line-reported-per-run", mid-before == 1 && after-mid == 1)
		if mid-before == 1 && after-mid == 1 {
			la := verifEffectArg("call:"+format, before, 2).(string)
			lb := verifEffectArg("call:"+format, mid, 2).(string)
			verifAssert("reported-variable-repeatable", la == lb)
		}
		return
	}
	verifAssert("every-variable-parsed", len(a) == n && len(b) == n)
	for i := 0; i < len(a) && i < len(b); i++ {
		verifAssert("method-order-repeatable", a[i].Location == b[i].Location)
	}
}

// VerifHarness_C17_ExtendFault: an extend line names several functions / patterns; when any of them cannot be
// resolved - whatever its position on the line - the line is a directive fault and is reported, nothing is
// registered silently in its place.
func VerifHarness_C17_ExtendFault() {
	n := 2 + nondetChoice("names", 2)
	bad := nondetChoice("unresolvable-name", 4) // 3 (or >= n): none
	ok := []*method.Definition{{ID: "func example.org/in.F", Name: "F"}}
	const getMatching = "(*github.com/jmattheis/goverter/pkgload.PackageLoader).GetMatching"
	line := "extend"
	for i := 0; i < n; i++ {
		line += " " + []string{"First", "Second", "Third"}[i]
		if i == bad {
			verifStubReturn(getMatching, nil, errors.New("no function found"))
		} else {
			verifStubReturn(getMatching, ok, nil)
		}
	}
	ctx := &context{WorkDir: "/work"}
	c := &Converter{ConverterConfig: DefaultConfigInterface, Location: "conv.go:1", FileName: "/work/in.go", Package: "example.org/in"}
	err := parseConverterLine(ctx, c, line)
	verifReach("extend-line-parsed")
	if bad < n {
		verifAssert("unresolvable-name-is-reported-at-every-position", err != nil)
	} else {
		verifAssert("resolvable-line-accepted", err == nil && len(c.Extend) == n)
	}
}
