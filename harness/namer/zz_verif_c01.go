//go:build verif

package namer

// Harness for C01 (kernel K3): identifiers handed out by the namer are fresh, recorded, never the
// reserved receiver name, and keep the requested base name as prefix.

var verifAlphabet = "cijkeyvalu23"

func verifName(tag string) string {
	s := nondetString(tag, 3)
	verifAssume(len(s) >= 1)
	for i := 0; i < len(s); i++ {
		in := false
		for j := 0; j < len(verifAlphabet); j++ {
			in = verifOr(in, s[i] == verifAlphabet[j])
		}
		verifAssume(in)
	}
	return s
}

func verifFresh(id, got string, pre []string) {
	for _, p := range pre {
		verifAssert(id+"-not-a-registered-name", got != p)
	}
	verifAssert(id+"-not-the-receiver", got != "c")
}

func VerifHarness_C01_Namer() {
	n := New()
	var pre []string
	k := nondetChoice("registered", 4)
	for i := 0; i < k; i++ {
		name := verifName("pre")
		n.Register(name)
		pre = append(pre, name)
	}
	switch nondetChoice("op", 4) {
	case 0:
		base := verifName("base")
		got := n.Name(base)
		verifReach("name")
		verifFresh("name", got, pre)
		verifAssert("name-keeps-base-as-prefix", len(got) >= len(base) && got[:len(base)] == base)
		verifAssert("name-is-recorded", !n.Register(got))
	case 1:
		got := n.Index()
		verifReach("index")
		verifFresh("index", got, pre)
		verifAssert("index-is-recorded", !n.Register(got))
		got2 := n.Index()
		verifAssert("nested-index-differs", got2 != got)
	case 2:
		key, value := n.Map()
		verifReach("map")
		verifFresh("map-key", key, pre)
		verifFresh("map-value", value, pre)
		verifAssert("map-names-distinct", key != value)
		verifAssert("map-key-recorded", !n.Register(key))
		verifAssert("map-value-recorded", !n.Register(value))
	default:
		a := verifName("a")
		first := n.Name(a)
		second := n.Name(a)
		verifReach("twice")
		verifAssert("same-base-twice-gives-different-names", first != second)
		verifFresh("second", second, pre)
	}
}
