//go:build verif

package namer

// Harness for C13 (kernel K9, namer part): handing out any number of loop index, map and plain names
// terminates and never repeats a name - a method may need more index variables than there are letters.

func VerifHarness_C13_NamerLoops() {
	n := New()
	seen := map[string]bool{}
	// names the generated method already uses
	if nondetChoice("preregistered", 2) == 1 {
		for _, p := range []string{"i", "j2", "key", "value2", "source"} {
			n.Register(p)
			seen[p] = true
		}
	}
	fresh := func(id, name string) {
		verifAssert(id+"-fresh", !seen[name])
		seen[name] = true
	}
	indexes := nondetChoice("index.calls", 60)
	for i := 0; i < indexes; i++ {
		fresh("index", n.Index())
	}
	maps := nondetChoice("map.calls", 6)
	for i := 0; i < maps; i++ {
		k, v := n.Map()
		fresh("map-key", k)
		fresh("map-value", v)
	}
	names := nondetChoice("name.calls", 6)
	for i := 0; i < names; i++ {
		fresh("name", n.Name("source"))
	}
	verifReach("named")
}
