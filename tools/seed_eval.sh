#!/bin/sh
# usage: seed_eval.sh <seed-id> <src-dir with patch.diff + demo> <property> [extra properties...]
# 1. confirms the seeded change in a scratch worktree (build + suite pass, demo fails with / passes without)
# 2. applies it to /repo, runs the quick check(s), reverts
# 3. stores everything under /verif/seeded/<seed-id>/
set -u
export GOFLAGS=-mod=mod GOPROXY=off GOSUMDB=off GOTOOLCHAIN=local
ID=$1; SRC=$2; shift 2; PROPS="$@"
OUT=/verif/seeded/$ID
WT=/tmp/confirm_$ID
mkdir -p $OUT
cp $SRC/patch.diff $OUT/patch.diff
[ -f $SRC/demo_test.go ] && cp $SRC/demo_test.go $OUT/demo_test.go
[ -f $SRC/demo.sh ] && cp $SRC/demo.sh $OUT/demo.sh
[ -f $SRC/notes.md ] && cp $SRC/notes.md $OUT/notes.md
git -C /repo worktree remove --force $WT 2>/dev/null
git -C /repo worktree add -q $WT HEAD || exit 3
run_demo() { # $1 = worktree
  if [ -f $OUT/demo_test.go ]; then
    cp $OUT/demo_test.go $1/zz_seed_demo_test.go
    names=$(grep -oE '^func (Test[A-Za-z0-9_]+)' $OUT/demo_test.go | awk '{print $2}' | paste -sd'|')
    (cd $1 && timeout 600 go test -vet=off -count=1 -run "^($names)\$" . >/tmp/demo_$ID.out 2>&1); rc=$?
    rm -f $1/zz_seed_demo_test.go
    return $rc
  else
    (cd $1 && timeout 600 bash $OUT/demo.sh $1 >/tmp/demo_$ID.out 2>&1); return $?
  fi
}
run_demo $WT; base=$?
(cd $WT && git apply $OUT/patch.diff) || { echo "patch does not apply"; exit 3; }
(cd $WT && go build ./... && go test -vet=off -count=1 ./... >/tmp/suite_$ID.out 2>&1); suite=$?
run_demo $WT; with=$?
git -C /repo worktree remove --force $WT
echo "confirm: demo without patch rc=$base, suite with patch rc=$suite, demo with patch rc=$with"
det=""
# evidence/replays written by runs against the patched tree must not replace the committed ones
rm -rf /tmp/evbak_$ID; mkdir -p /tmp/evbak_$ID; cp -a /verif/evidence /tmp/evbak_$ID/evidence; [ -d /verif/replays ] && cp -a /verif/replays /tmp/evbak_$ID/replays
git -C /repo apply $OUT/patch.diff || { echo "cannot apply to /repo"; exit 3; }
for p in $PROPS; do
  (cd /verif && timeout 1800 ${VCHECK:-bin/vcheck} -p $p -tier quick > /tmp/check_${ID}_$p.out 2>&1); rc=$?
  nv=$(grep -c '^VIOLATION' /tmp/check_${ID}_$p.out)
  det="$det $p:rc=$rc:violations=$nv"
  grep -E '^(VIOLATION|  (conv|kernel)|SPURIOUS|UNCONFIRMED|TOOL-ERROR)' /tmp/check_${ID}_$p.out | head -6
done
git -C /repo apply -R $OUT/patch.diff 2>/dev/null || git -C /repo checkout -- .
git -C /repo checkout -- .
rm -rf /verif/evidence /verif/replays; cp -a /tmp/evbak_$ID/evidence /verif/evidence; [ -d /tmp/evbak_$ID/replays ] && cp -a /tmp/evbak_$ID/replays /verif/replays; rm -rf /tmp/evbak_$ID
echo "detection:$det"
cat > $OUT/result.txt <<EOT
demo_without_patch_rc=$base
suite_with_patch_rc=$suite
demo_with_patch_rc=$with
checks=$det
EOT
