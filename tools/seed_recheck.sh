#!/bin/bash
# usage: seed_recheck.sh <repo-copy> [seed ids...]
# Applies every stored seed to a scratch copy of the repository (never to /repo), runs the quick check of its
# property there and records whether it is reported. Writes seeded/<id>/recheck.txt in the /verif tree it runs from.
set -u
export GOFLAGS=-mod=mod GOPROXY=off GOSUMDB=off GOTOOLCHAIN=local VERIF_NO_EVIDENCE=1 VERIF_NO_TV=1
REPO=$1; shift
ROOT=${VERIF_ROOT:-/verif}
ids="$@"
[ -z "$ids" ] && ids=$(ls $ROOT/seeded)
for id in $ids; do
  d=$ROOT/seeded/$id
  prop=${id%%-*}
  if ! patch -p1 -s -d $REPO --dry-run < $d/patch.diff >/dev/null 2>&1; then echo "$id: patch does not apply"; continue; fi
  patch -p1 -s -d $REPO < $d/patch.diff
  out=$(cd $ROOT && timeout 1800 bin/vcheck -p $prop -tier quick -repo $REPO 2>&1); rc=$?
  patch -p1 -s -R -d $REPO < $d/patch.diff
  nv=$(echo "$out" | grep -c '^VIOLATION')
  first=$(echo "$out" | grep -A1 '^VIOLATION' | sed -n 2p | cut -c1-260)
  echo "$id: rc=$rc violations=$nv $first"
  printf 'rc=%s violations=%s\n%s\n' "$rc" "$nv" "$first" > $d/recheck.txt
done
