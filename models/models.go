// Package models holds plain-Go byte-loop models of the stdlib text functions used by goverter.
// The engine executes these symbolically (bytes-model strings) in place of the real functions;
// models_test.go validates each of them natively against the real function.
// ASCII only: every byte is assumed < 0x80.
package models

func verifIsSpace(c byte) bool {
	return c == ' ' || c == '\t' || c == '\n' || c == '\v' || c == '\f' || c == '\r'
}

func VerifModelFields(s string) []string {
	var out []string
	start := -1
	for i := 0; i < len(s); i++ {
		if verifIsSpace(s[i]) {
			if start >= 0 {
				out = append(out, s[start:i])
				start = -1
			}
		} else if start < 0 {
			start = i
		}
	}
	if start >= 0 {
		out = append(out, s[start:])
	}
	return out
}

func VerifModelIndex(s, sep string) int {
	n := len(sep)
	for i := 0; i+n <= len(s); i++ {
		if s[i:i+n] == sep {
			return i
		}
	}
	return -1
}

func VerifModelContains(s, sub string) bool { return VerifModelIndex(s, sub) >= 0 }

func VerifModelContainsRune(s string, r rune) bool {
	for i := 0; i < len(s); i++ {
		if rune(s[i]) == r {
			return true
		}
	}
	return false
}

func VerifModelHasPrefix(s, p string) bool { return len(s) >= len(p) && s[:len(p)] == p }
func VerifModelHasSuffix(s, p string) bool { return len(s) >= len(p) && s[len(s)-len(p):] == p }

func VerifModelTrimPrefix(s, p string) string {
	if VerifModelHasPrefix(s, p) {
		return s[len(p):]
	}
	return s
}

func VerifModelTrimSuffix(s, p string) string {
	if VerifModelHasSuffix(s, p) {
		return s[:len(s)-len(p)]
	}
	return s
}

func VerifModelTrimSpace(s string) string {
	i, j := 0, len(s)
	for i < j && verifIsSpace(s[i]) {
		i++
	}
	for j > i && verifIsSpace(s[j-1]) {
		j--
	}
	return s[i:j]
}

// VerifModelSplitN: sep non-empty.
func VerifModelSplitN(s, sep string, n int) []string {
	if n == 0 {
		return nil
	}
	if sep == "" {
		panic("model: SplitN with empty separator")
	}
	var out []string
	for n < 0 || len(out) < n-1 {
		i := VerifModelIndex(s, sep)
		if i < 0 {
			break
		}
		out = append(out, s[:i])
		s = s[i+len(sep):]
	}
	return append(out, s)
}

func VerifModelSplit(s, sep string) []string { return VerifModelSplitN(s, sep, -1) }

func VerifModelJoin(elems []string, sep string) string {
	out := ""
	for i, e := range elems {
		if i > 0 {
			out += sep
		}
		out += e
	}
	return out
}

func VerifModelRepeat(s string, count int) string {
	if count < 0 {
		panic("strings: negative Repeat count")
	}
	out := ""
	for i := 0; i < count; i++ {
		out += s
	}
	return out
}

func verifLower(c byte) byte {
	if c >= 'A' && c <= 'Z' {
		return c + 32
	}
	return c
}

func VerifModelEqualFold(a, b string) bool {
	if len(a) != len(b) {
		return false
	}
	for i := 0; i < len(a); i++ {
		if verifLower(a[i]) != verifLower(b[i]) {
			return false
		}
	}
	return true
}

// VerifModelLines models bufio.Scanner with ScanLines over the whole string.
func VerifModelLines(s string) []string {
	var out []string
	start := 0
	for i := 0; i < len(s); i++ {
		if s[i] == '\n' {
			line := s[start:i]
			if len(line) > 0 && line[len(line)-1] == '\r' {
				line = line[:len(line)-1]
			}
			out = append(out, line)
			start = i + 1
		}
	}
	if start < len(s) {
		line := s[start:]
		if len(line) > 0 && line[len(line)-1] == '\r' {
			line = line[:len(line)-1]
		}
		out = append(out, line)
	}
	return out
}

func VerifModelCut(s, sep string) (before, after string, found bool) {
	if i := VerifModelIndex(s, sep); i >= 0 {
		return s[:i], s[i+len(sep):], true
	}
	return s, "", false
}

func VerifModelCutPrefix(s, prefix string) (after string, found bool) {
	if !VerifModelHasPrefix(s, prefix) {
		return s, false
	}
	return s[len(prefix):], true
}

func VerifModelCutSuffix(s, suffix string) (before string, found bool) {
	if !VerifModelHasSuffix(s, suffix) {
		return s, false
	}
	return s[:len(s)-len(suffix)], true
}

func VerifModelLastIndex(s, sep string) int {
	n := len(sep)
	for i := len(s) - n; i >= 0; i-- {
		if s[i:i+n] == sep {
			return i
		}
	}
	return -1
}

func VerifModelIndexByte(s string, c byte) int {
	for i := 0; i < len(s); i++ {
		if s[i] == c {
			return i
		}
	}
	return -1
}

func VerifModelCount(s, sep string) int {
	if sep == "" {
		return len(s) + 1
	}
	n := 0
	for {
		i := VerifModelIndex(s, sep)
		if i < 0 {
			return n
		}
		n++
		s = s[i+len(sep):]
	}
}

func VerifModelReplaceAll(s, old, new string) string {
	if old == "" {
		panic("model: ReplaceAll with empty old")
	}
	out := ""
	for {
		i := VerifModelIndex(s, old)
		if i < 0 {
			return out + s
		}
		out += s[:i] + new
		s = s[i+len(old):]
	}
}

func VerifModelReplace(s, old, new string, n int) string {
	if old == "" {
		panic("model: Replace with empty old")
	}
	out := ""
	for k := 0; n < 0 || k < n; k++ {
		i := VerifModelIndex(s, old)
		if i < 0 {
			break
		}
		out += s[:i] + new
		s = s[i+len(old):]
	}
	return out + s
}

func verifInSet(c byte, set string) bool {
	for i := 0; i < len(set); i++ {
		if set[i] == c {
			return true
		}
	}
	return false
}

func VerifModelTrimLeft(s, cutset string) string {
	i := 0
	for i < len(s) && verifInSet(s[i], cutset) {
		i++
	}
	return s[i:]
}

func VerifModelTrimRight(s, cutset string) string {
	j := len(s)
	for j > 0 && verifInSet(s[j-1], cutset) {
		j--
	}
	return s[:j]
}

func VerifModelTrim(s, cutset string) string {
	return VerifModelTrimRight(VerifModelTrimLeft(s, cutset), cutset)
}

func VerifModelToLower(s string) string {
	out := ""
	for i := 0; i < len(s); i++ {
		out += string(rune(verifLower(s[i])))
	}
	return out
}

func VerifModelToUpper(s string) string {
	out := ""
	for i := 0; i < len(s); i++ {
		c := s[i]
		if c >= 'a' && c <= 'z' {
			c -= 32
		}
		out += string(rune(c))
	}
	return out
}

// VerifModelPathExt models path/filepath.Ext on Unix: the suffix beginning at the final dot of the final element.
func VerifModelPathExt(p string) string {
	for i := len(p) - 1; i >= 0 && p[i] != '/'; i-- {
		if p[i] == '.' {
			return p[i:]
		}
	}
	return ""
}

// VerifModelPathBase models path/filepath.Base on Unix.
func VerifModelPathBase(p string) string {
	if p == "" {
		return "."
	}
	for len(p) > 0 && p[len(p)-1] == '/' {
		p = p[:len(p)-1]
	}
	i := len(p) - 1
	for i >= 0 && p[i] != '/' {
		i--
	}
	if i >= 0 {
		p = p[i+1:]
	}
	if p == "" {
		return "/"
	}
	return p
}
