package models

import (
	"bufio"
	"path/filepath"
	"reflect"
	"strings"
	"testing"
)

var alphabet = []byte{' ', '\t', '\n', '\r', 'a', 'A', ':', '|', '.'}

func allStrings(max int, f func(string)) {
	var rec func(prefix []byte)
	rec = func(prefix []byte) {
		f(string(prefix))
		if len(prefix) == max {
			return
		}
		for _, c := range alphabet {
			rec(append(prefix, c))
		}
	}
	rec(nil)
}

func eqSlices(a, b []string) bool {
	if len(a) == 0 && len(b) == 0 {
		return true
	}
	return reflect.DeepEqual(a, b)
}

func realLines(s string) []string {
	var out []string
	sc := bufio.NewScanner(strings.NewReader(s))
	for sc.Scan() {
		out = append(out, sc.Text())
	}
	return out
}

func TestModelsAgainstStdlib(t *testing.T) {
	n := 0
	allStrings(5, func(s string) {
		n++
		if !eqSlices(VerifModelFields(s), strings.Fields(s)) {
			t.Fatalf("Fields(%q)", s)
		}
		if VerifModelTrimSpace(s) != strings.TrimSpace(s) {
			t.Fatalf("TrimSpace(%q)", s)
		}
		if !eqSlices(VerifModelLines(s), realLines(s)) {
			t.Fatalf("Lines(%q): %q vs %q", s, VerifModelLines(s), realLines(s))
		}
		for _, sep := range []string{" ", ":", "|", "\n", "a:", "."} {
			for _, k := range []int{-1, 0, 1, 2, 3} {
				if !eqSlices(VerifModelSplitN(s, sep, k), strings.SplitN(s, sep, k)) {
					t.Fatalf("SplitN(%q,%q,%d)", s, sep, k)
				}
			}
			if VerifModelIndex(s, sep) != strings.Index(s, sep) || VerifModelContains(s, sep) != strings.Contains(s, sep) {
				t.Fatalf("Index(%q,%q)", s, sep)
			}
			if VerifModelHasPrefix(s, sep) != strings.HasPrefix(s, sep) || VerifModelHasSuffix(s, sep) != strings.HasSuffix(s, sep) ||
				VerifModelTrimPrefix(s, sep) != strings.TrimPrefix(s, sep) || VerifModelTrimSuffix(s, sep) != strings.TrimSuffix(s, sep) {
				t.Fatalf("prefix/suffix(%q,%q)", s, sep)
			}
			if VerifModelJoin(strings.Split(s, sep), sep) != s {
				t.Fatalf("Join(%q,%q)", s, sep)
			}
		}
		for _, sep := range []string{" ", ":", "a:", "."} {
			b1, a1, f1 := VerifModelCut(s, sep)
			b2, a2, f2 := strings.Cut(s, sep)
			if b1 != b2 || a1 != a2 || f1 != f2 {
				t.Fatalf("Cut(%q,%q)", s, sep)
			}
			p1, pf1 := VerifModelCutPrefix(s, sep)
			p2, pf2 := strings.CutPrefix(s, sep)
			q1, qf1 := VerifModelCutSuffix(s, sep)
			q2, qf2 := strings.CutSuffix(s, sep)
			if p1 != p2 || pf1 != pf2 || q1 != q2 || qf1 != qf2 {
				t.Fatalf("CutPrefix/Suffix(%q,%q)", s, sep)
			}
			if VerifModelLastIndex(s, sep) != strings.LastIndex(s, sep) || VerifModelCount(s, sep) != strings.Count(s, sep) {
				t.Fatalf("LastIndex/Count(%q,%q)", s, sep)
			}
			if VerifModelReplaceAll(s, sep, "xy") != strings.ReplaceAll(s, sep, "xy") {
				t.Fatalf("ReplaceAll(%q,%q)", s, sep)
			}
			for _, n := range []int{-1, 0, 1, 2} {
				if VerifModelReplace(s, sep, "xy", n) != strings.Replace(s, sep, "xy", n) {
					t.Fatalf("Replace(%q,%q,%d)", s, sep, n)
				}
			}
		}
		for _, set := range []string{" ", " \t", "a:"} {
			if VerifModelTrimLeft(s, set) != strings.TrimLeft(s, set) || VerifModelTrimRight(s, set) != strings.TrimRight(s, set) || VerifModelTrim(s, set) != strings.Trim(s, set) {
				t.Fatalf("Trim*(%q,%q)", s, set)
			}
		}
		if VerifModelIndexByte(s, ':') != strings.IndexByte(s, ':') || VerifModelToLower(s) != strings.ToLower(s) || VerifModelToUpper(s) != strings.ToUpper(s) {
			t.Fatalf("IndexByte/ToLower/ToUpper(%q)", s)
		}
		if VerifModelContainsRune(s, '.') != strings.ContainsRune(s, '.') {
			t.Fatalf("ContainsRune(%q)", s)
		}
		if len(s) <= 3 {
			allStrings(3, func(u string) {
				if VerifModelEqualFold(s, u) != strings.EqualFold(s, u) {
					t.Fatalf("EqualFold(%q,%q)", s, u)
				}
			})
		}
		for k := 0; k < 3; k++ {
			if VerifModelRepeat(s, k) != strings.Repeat(s, k) {
				t.Fatalf("Repeat(%q,%d)", s, k)
			}
		}
	})
	t.Logf("%d strings", n)
}

func TestPathModels(t *testing.T) {
	alpha := []byte{'/', '.', 'a', 'g', ' '}
	var rec func(prefix []byte)
	n := 0
	rec = func(prefix []byte) {
		s := string(prefix)
		n++
		if VerifModelPathExt(s) != filepath.Ext(s) {
			t.Fatalf("Ext(%q): %q vs %q", s, VerifModelPathExt(s), filepath.Ext(s))
		}
		if VerifModelPathBase(s) != filepath.Base(s) {
			t.Fatalf("Base(%q): %q vs %q", s, VerifModelPathBase(s), filepath.Base(s))
		}
		if len(prefix) == 7 {
			return
		}
		for _, c := range alpha {
			rec(append(prefix, c))
		}
	}
	rec(nil)
	t.Logf("%d strings", n)
}
