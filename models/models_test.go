package models

import (
	"bufio"
	"reflect"
	"strings"
	"testing"
)

var alphabet = []byte{' ', '\t', '\n', '\r', 'a', 'A', ':', '|', '.'}

func allStrings(max int, f func(string)) {
	var rec func(prefix []byte)
	rec = func(prefix []byte) {
		f(string(prefix))
		if len(prefix) == max {
			return
		}
		for _, c := range alphabet {
			rec(append(prefix, c))
		}
	}
	rec(nil)
}

func eqSlices(a, b []string) bool {
	if len(a) == 0 && len(b) == 0 {
		return true
	}
	return reflect.DeepEqual(a, b)
}

func realLines(s string) []string {
	var out []string
	sc := bufio.NewScanner(strings.NewReader(s))
	for sc.Scan() {
		out = append(out, sc.Text())
	}
	return out
}

func TestModelsAgainstStdlib(t *testing.T) {
	n := 0
	allStrings(5, func(s string) {
		n++
		if !eqSlices(VerifModelFields(s), strings.Fields(s)) {
			t.Fatalf("Fields(%q)", s)
		}
		if VerifModelTrimSpace(s) != strings.TrimSpace(s) {
			t.Fatalf("TrimSpace(%q)", s)
		}
		if !eqSlices(VerifModelLines(s), realLines(s)) {
			t.Fatalf("Lines(%q): %q vs %q", s, VerifModelLines(s), realLines(s))
		}
		for _, sep := range []string{" ", ":", "|", "\n", "a:", "."} {
			for _, k := range []int{-1, 0, 1, 2, 3} {
				if !eqSlices(VerifModelSplitN(s, sep, k), strings.SplitN(s, sep, k)) {
					t.Fatalf("SplitN(%q,%q,%d)", s, sep, k)
				}
			}
			if VerifModelIndex(s, sep) != strings.Index(s, sep) || VerifModelContains(s, sep) != strings.Contains(s, sep) {
				t.Fatalf("Index(%q,%q)", s, sep)
			}
			if VerifModelHasPrefix(s, sep) != strings.HasPrefix(s, sep) || VerifModelHasSuffix(s, sep) != strings.HasSuffix(s, sep) ||
				VerifModelTrimPrefix(s, sep) != strings.TrimPrefix(s, sep) || VerifModelTrimSuffix(s, sep) != strings.TrimSuffix(s, sep) {
				t.Fatalf("prefix/suffix(%q,%q)", s, sep)
			}
			if VerifModelJoin(strings.Split(s, sep), sep) != s {
				t.Fatalf("Join(%q,%q)", s, sep)
			}
		}
		if VerifModelContainsRune(s, '.') != strings.ContainsRune(s, '.') {
			t.Fatalf("ContainsRune(%q)", s)
		}
		if len(s) <= 3 {
			allStrings(3, func(u string) {
				if VerifModelEqualFold(s, u) != strings.EqualFold(s, u) {
					t.Fatalf("EqualFold(%q,%q)", s, u)
				}
			})
		}
		for k := 0; k < 3; k++ {
			if VerifModelRepeat(s, k) != strings.Repeat(s, k) {
				t.Fatalf("Repeat(%q,%d)", s, k)
			}
		}
	})
	t.Logf("%d strings", n)
}
